"""Contracts of the binary OUTPUT4 WRITERS in pyyeti/nastran/op4.py (property C04; the reader side is contracts/op4_readers.py).

The output file is GHOST STATE: a byte offset `pos__` and what has been written so far,
    W4[p]               - the 4-byte integer written at offset p,
    VCOL/VLO/VN[p]      - a block of reals written at offset p: VN doubles taken from matrix column VCOL starting at row VLO,
    rec0__              - the offset of the last 4-integer record header written, nrec__ the number of such headers.
`f.write` appends at `pos__` (the writers never seek: the file object of the contract has no other method, so a seek is reported as unsupported);
`struct.Struct(endian + "4i").pack(a, b, c, d)` and `struct.pack(endian + "%dd" % n, *v)` build tokens and carry the obligation that the number of
values equals the count of the format (struct.error otherwise).

The matrix is abstract: `ANY(c)` - column c has a non-zero, `FIRST(c)`/`LAST(c)` - its first / last non-zero row (0 <= FIRST <= LAST < rows when
ANY), `MULT` - 1 for a real, 2 for a complex matrix.  `matrix[:, c]`, `v[s:e+1]`, `np.asarray(v).ravel()` are views (column, first row, one past the
last row); `v.dtype = float` turns a view of (hi-lo) entries into (hi-lo)*MULT doubles.

What the obligations decide, for every matrix and every number of columns (loop invariant over the column loop, the nested `_write_col_data` inlined):
  * every column WITH a non-zero produces exactly one record, every column without one produces none (nrec__ == NDATA(c), NDATA defined by unfolding);
  * that record is   [len:4] [icol = c+1] [irow = FIRST(c)+1] [nw = 2*(LAST-FIRST+1)*MULT]  (LAST-FIRST+1)*MULT doubles = matrix[FIRST..LAST, c]  [len:4]
    with len = 4*(3+nw), and it satisfies the one-step record definition of the READER contract (`op4_readers.dense_record_def`, the same Python function,
    instantiated on the written words) - so the file the writer produces meets the precondition WFM under which the reader's obligations were discharged,
    and the reader's `put(X, irow-1, icol-1, values)` restores matrix[FIRST..LAST, c]; all other entries of the column are zero by definition of FIRST/LAST;
  * the matrix ends with the record [20] [cols+1] [1] [2] one double [20], i.e. a record whose icol exceeds cols (what ends the reader's loop).
Assumed (callee contract, listed in the evidence): `_write_binary_header` returns (cols, multiplier) with cols >= 0 and multiplier == MULT and appends the
32-byte header record; numpy's nonzero/any/slicing semantics as stated above.
"""
import ast
import z3
from vc.symex import Contract, PyObj, Unsupported
from contracts import op4_readers as OR

FILE = "pyyeti/nastran/op4.py"

ANY = z3.Function("col_has_nonzero", z3.IntSort(), z3.BoolSort())
FIRST = z3.Function("col_first_nonzero", z3.IntSort(), z3.IntSort())
LAST = z3.Function("col_last_nonzero", z3.IntSort(), z3.IntSort())
NDATA = z3.Function("cols_with_data_before", z3.IntSort(), z3.IntSort())
NS = z3.Function("col_strings", z3.IntSort(), z3.IntSort())                           # number of maximal runs of non-zeros in column c
R0 = z3.Function("string_first_row", z3.IntSort(), z3.IntSort(), z3.IntSort())        # first row (0-based) of run k of column c
R1 = z3.Function("string_rows", z3.IntSort(), z3.IntSort(), z3.IntSort())             # its number of rows
PS = z3.Function("rows_in_strings_before", z3.IntSort(), z3.IntSort(), z3.IntSort())  # R1(c,0) + ... + R1(c,k-1)
TOT = z3.Function("col_nonzero_run_rows", z3.IntSort(), z3.IntSort())                 # PS(c, NS(c))
MULT = z3.Int("MULT")
ROWS = z3.Int("ROWS")
AI = z3.ArraySort(z3.IntSort(), z3.IntSort())


class Fmt:
    def __init__(self, kind, count):
        self.kind, self.count = kind, count          # kind 'i' / 'd'; count: python int or z3 int


class Packed:
    def __init__(self, kind, ints=None, view=None, n=None):
        self.kind, self.ints, self.view, self.n = kind, ints, view, n


def _view(col, lo, hi, as_float):
    o = PyObj("column view")
    o.transient = True
    o.col, o.lo, o.hi, o.as_float = col, lo, hi, as_float

    def getitem(eng, e, st, spec):
        sl = e.slice
        if not isinstance(sl, ast.Slice) or sl.step is not None:
            raise Unsupported("index into a column view: %s" % ast.unparse(e))
        a = eng.to_int(eng.ev(sl.lower, st, spec)) if sl.lower is not None else z3.IntVal(0)
        b = eng.to_int(eng.ev(sl.upper, st, spec)) if sl.upper is not None else (o.hi - o.lo)
        if not spec:
            eng.oblige(st, z3.And(a >= 0, b <= o.hi - o.lo, a <= b), "slice-within-column@L%s" % e.lineno, "bounds", e)
        return _view(o.col, o.lo + a, o.lo + b, o.as_float)

    def setattr_(eng, t, val, st):
        if t.attr != "dtype" or val is not FLOAT or not isinstance(t.value, ast.Name):
            raise Unsupported("attribute store %s" % ast.unparse(t))
        st.env[t.value.id] = _view(o.col, o.lo, o.hi, True)

    def ravel(eng, e, st, spec):
        return o

    def nonzero(eng, e, st, spec):
        pv = PyObj("nonzero indices of column")
        pv.transient = True
        pv.view = o
        return (pv,)

    o.getitem, o.setattr = getitem, setattr_
    o.methods = {"ravel": ravel, "nonzero": nonzero}
    return o


FLOAT = PyObj("float")


def make_env():
    endian = PyObj("endian")

    def endian_binop(eng, op, other, self_left):
        if not (self_left and isinstance(op, ast.Add)):
            raise Unsupported("operation on the byte-order character")
        if isinstance(other, Fmt):
            return other
        if isinstance(other, str):
            k = other[-1]
            n = other[:-1]
            if k in "id" and (n == "" or n.isdigit()):
                return Fmt(k, int(n) if n else 1)
            if set(other) == {"i"}:
                return Fmt("i", len(other))
        raise Unsupported("struct format %r" % (other,))
    endian.binop = endian_binop

    def write(eng, e, st, spec):
        tok = eng.ev(e.args[0], st)
        if not isinstance(tok, Packed):
            raise Unsupported("f.write of something that is not packed by struct")
        p = st.env["pos__"]
        if tok.kind == "i":
            if len(tok.ints) == 4:
                st.env["rec0__"] = p
                st.env["nrec__"] = st.env["nrec__"] + 1
            W = st.env["W4__"]
            for j, v in enumerate(tok.ints):
                W = z3.Store(W, p + 4 * j, v)
            st.env["W4__"] = W
            st.env["pos__"] = p + 4 * len(tok.ints)
        elif tok.kind == "view":
            st.env["VCOL__"] = z3.Store(st.env["VCOL__"], p, tok.view.col)
            st.env["VLO__"] = z3.Store(st.env["VLO__"], p, tok.view.lo)
            st.env["VN__"] = z3.Store(st.env["VN__"], p, tok.n)
            st.env["pos__"] = p + 8 * tok.n
        else:       # one scalar double
            st.env["VN__"] = z3.Store(st.env["VN__"], p, z3.IntVal(1))
            st.env["VCOL__"] = z3.Store(st.env["VCOL__"], p, z3.IntVal(-1))
            st.env["pos__"] = p + 8
        return None

    fileobj = PyObj("file", methods={"write": write})

    def struct_Struct(eng, e, st, spec):
        fmt = eng.ev(e.args[0], st)
        if not isinstance(fmt, Fmt) or fmt.kind != "i" or not isinstance(fmt.count, int):
            raise Unsupported("struct.Struct format")

        def pack(eng_, e2, st2, spec2):
            if len(e2.args) != fmt.count or any(isinstance(a, ast.Starred) for a in e2.args):
                eng.oblige(st2, z3.BoolVal(False), "pack-count-matches-format@L%s" % e2.lineno, "assert", e2)
            vals = [eng.to_int(eng.ev(a, st2)) for a in e2.args]
            for v in vals:
                eng.oblige(st2, z3.And(v >= -2 ** 31, v < 2 ** 31), "pack-fits-int32@L%s" % e2.lineno, "assert", e2)
            return Packed("i", ints=vals)
        return PyObj("Struct(%d i)" % fmt.count, methods={"pack": pack})

    def struct_pack(eng, e, st, spec):
        fmt = eng.ev(e.args[0], st)
        if not isinstance(fmt, Fmt) or fmt.kind != "d":
            raise Unsupported("struct.pack format")
        rest = e.args[1:]
        if len(rest) == 1 and isinstance(rest[0], ast.Starred):
            v = eng.ev(rest[0].value, st)
            if not (isinstance(v, PyObj) and v.kind == "column view"):
                raise Unsupported("struct.pack(*x) of something that is not a view of the matrix")
            n = (v.hi - v.lo) * (MULT if v.as_float else 1)
            eng.oblige(st, z3.Or(z3.BoolVal(v.as_float), MULT == 1), "pack-values-are-real@L%s" % e.lineno, "assert", e)
            eng.oblige(st, n == eng.to_int(fmt.count), "pack-count-matches-format@L%s" % e.lineno, "assert", e)
            return Packed("view", view=v, n=n)
        if len(rest) == 1:
            eng.ev(rest[0], st)
            eng.oblige(st, eng.to_int(fmt.count) == 1, "pack-count-matches-format@L%s" % e.lineno, "assert", e)
            return Packed("scalar")
        raise Unsupported("struct.pack arguments")

    def str_mod(eng, e, st, spec):
        raise Unsupported("unused")

    def isinstance_(eng, e, st, spec):
        a = eng.ev(e.args[0], st)
        if a is matrix and ast.unparse(e.args[1]) == "np.ndarray":
            return True
        raise Unsupported("isinstance(%s)" % ast.unparse(e)[:40])

    def m_getitem(eng, e, st, spec):
        sl = e.slice
        if isinstance(sl, ast.Tuple) and len(sl.elts) == 2 and isinstance(sl.elts[0], ast.Slice) and sl.elts[0].lower is None and sl.elts[0].upper is None \
                and sl.elts[0].step is None:
            c = eng.to_int(eng.ev(sl.elts[1], st, spec))
            if not spec:
                eng.oblige(st, z3.And(c >= 0, c < st.env["COLS__"]), "column-index-in-range@L%s" % e.lineno, "bounds", e)
            return _view(c, z3.IntVal(0), ROWS, False)
        raise Unsupported("matrix index %s" % ast.unparse(e))
    matrix = PyObj("ndarray", getitem=m_getitem)

    def np_any(eng, e, st, spec):
        v = eng.ev(e.args[0], st)
        if not (isinstance(v, PyObj) and v.kind == "column view") or len(e.args) != 1:
            raise Unsupported("np.any argument")
        # a full column: the abstract predicate; (sub-views are not asked for by the code under contract)
        return z3.And(ANY(v.col), z3.BoolVal(True)) if (z3.is_expr(v.lo) and z3.simplify(v.lo == 0).eq(z3.BoolVal(True))) else _unsup("np.any of a sub-view")

    def _unsup(m):
        raise Unsupported(m)

    def np_nonzero(eng, e, st, spec):
        v = eng.ev(e.args[0], st)
        if not (isinstance(v, PyObj) and v.kind == "column view"):
            raise Unsupported("np.nonzero argument")
        col = v.col
        # definition of the first / last non-zero of a column that has one (numpy semantics, assumed)
        st.assume(z3.Implies(ANY(col), z3.And(FIRST(col) >= 0, FIRST(col) <= LAST(col), LAST(col) < ROWS)))

        def pv_get(eng_, e2, st2, spec2):
            i = eng.ev(e2.slice, st2, spec2)
            if i == 0:
                if not spec2:
                    eng.oblige(st2, ANY(col), "nonzero-index-exists@L%s" % e2.lineno, "bounds", e2)
                return FIRST(col) - v.lo
            if i == -1:
                if not spec2:
                    eng.oblige(st2, ANY(col), "nonzero-index-exists@L%s" % e2.lineno, "bounds", e2)
                return LAST(col) - v.lo
            raise Unsupported("index %r into np.nonzero(...)[0]" % (i,))
        pv = PyObj("nonzero indices", getitem=pv_get)
        pv.transient = True
        return (pv,)

    def np_asarray(eng, e, st, spec):
        return eng.ev(e.args[0], st)

    def header(eng, e, st, spec):
        # assumed callee contract of _write_binary_header (its own arithmetic is exercised by the bounded round trips)
        f = eng.ev(e.args[0], st)
        if f is not fileobj or eng.ev(e.args[2], st) is not matrix:
            raise Unsupported("_write_binary_header arguments")
        st.env["pos__"] = st.env["pos__"] + 32
        return (st.env["COLS__"], MULT)

    selfobj = PyObj("OP4", methods={"_write_binary_header": header})

    def uf(f):
        def call(eng, e, st, spec):
            return f(*[eng.to_int(eng.ev(a, st, spec)) for a in e.args])
        return call

    def sel(name):
        def call(eng, e, st, spec):
            return z3.Select(st.env[name], eng.to_int(eng.ev(e.args[0], st, spec)))
        return call

    def unfold_ndata(eng, e, st, spec):
        k = eng.to_int(eng.ev(e.args[0], st, True))
        return z3.And(NDATA(0) == 0, NDATA(k + 1) == NDATA(k) + z3.If(ANY(k), 1, 0))

    def reader_record_def(eng, e, st, spec):
        """the READER's one-step definition of a dense record (op4_readers.dense_record_def) on the words just written: body offset P = R + 4 + 3*bi, bi = 4,
        words per value = 2*MULT (double precision), bytes per value = 8*MULT"""
        R = eng.to_int(eng.ev(e.args[0], st, True))
        W = st.env["W4__"]
        FIw = lambda p: z3.Select(W, p)
        body, lenmark, E = OR.dense_record_def(FIw, FIw, R + 16, z3.IntVal(4), 2 * MULT, 8 * MULT)
        return z3.And(body, lenmark, st.env["pos__"] == E + 4)

    builtins = {"struct.Struct": struct_Struct, "struct.pack": struct_pack, "isinstance": isinstance_, "np.any": np_any, "np.nonzero": np_nonzero,
                "np.asarray": np_asarray, "ANY": uf(ANY), "FIRST": uf(FIRST), "LAST": uf(LAST), "NDATA": uf(NDATA), "W4": sel("W4__"), "VCOL": sel("VCOL__"),
                "VLO": sel("VLO__"), "VN": sel("VN__"), "UNFOLD_NDATA": unfold_ndata, "READER_RECORD_DEF": reader_record_def}
    return dict(selfobj=selfobj, fileobj=fileobj, matrix=matrix, endian=endian, builtins=builtins)


def dense_writer():
    env = make_env()
    c = Contract(FILE, "OP4._write_binary", floats="real")
    c.objects = True
    c.variant = "ndarray"
    c.names = {"float": FLOAT}

    def str_format(eng, a, b):
        if a == "%dd":
            return Fmt("d", eng.to_int(b))
        raise Unsupported("string format %r" % (a,))
    c.str_format = str_format
    c.extra_mods = ("pos__", "W4__", "VCOL__", "VLO__", "VN__", "rec0__", "nrec__")
    c.param_types.update({"self": ("const", env["selfobj"])})
    c.types(f=("const", env["fileobj"]), name=("const", PyObj("name")), matrix=("const", env["matrix"]), endian=("const", env["endian"]), form=("const", None),
            COLS__="int", P0__="int", MULT=("const", MULT), ROWS=("const", ROWS))
    c.ghost("pos__", "int", "P0__")
    c.ghost("rec0__", "int", "0")
    c.ghost("nrec__", "int", "0")
    for g in ("W4__", "VCOL__", "VLO__", "VN__"):
        c.ghost(g, "intmap", None)
    # capacity of the format (4-byte integers): beyond it struct.pack raises - an error, not a wrong file; NDATA(0) == 0 is the base case of its definition
    c.requires("COLS__ >= 0", "MULT == 1 or MULT == 2", "ROWS >= 0", "P0__ >= 0", "COLS__ < 2147483647", "16 * ROWS + 12 <= 2147483647", "NDATA(0) == 0")
    c.loop("0", invariant=["0 <= nx_c", "nx_c <= cols", "cols == COLS__", "multiplier == MULT", "nrec__ == NDATA(nx_c)", "pos__ >= P0__ + 32",
                           "nrec__ == 0 or pos__ == rec0__ + 4 + W4(rec0__) + 4 and W4(pos__ - 4) == W4(rec0__)"], unfold=["UNFOLD_NDATA(nx_c)"])
    call = "_write_col_data(f, v, c, s, elems, endian, colHeader, colTrailer)"
    c.after_stmt(call, ["assert W4(rec0__ + 4) == c + 1",
                        "assert W4(rec0__ + 8) == FIRST(c) + 1",
                        "assert W4(rec0__ + 12) == 2 * (LAST(c) - FIRST(c) + 1) * MULT",
                        "assert VCOL(rec0__ + 16) == c and VLO(rec0__ + 16) == FIRST(c) and VN(rec0__ + 16) == (LAST(c) - FIRST(c) + 1) * MULT",
                        "assert W4(rec0__) == 4 * (3 + W4(rec0__ + 12))",
                        "assert W4(rec0__ + 16 + 4 * W4(rec0__ + 12)) == W4(rec0__)",
                        "assert pos__ == rec0__ + 4 + W4(rec0__) + 4",
                        "assert READER_RECORD_DEF(rec0__)",
                        "assert ANY(c) and nrec__ == NDATA(c) + 1"])
    # the record that ends the matrix
    c.ensures("nrec__ == NDATA(COLS__) + 1", "W4(rec0__) == 20", "W4(rec0__ + 4) == COLS__ + 1", "W4(rec0__ + 8) == 1", "W4(rec0__ + 12) == 2",
              "VN(rec0__ + 16) == 1", "W4(rec0__ + 24) == 20", "pos__ == rec0__ + 28", "W4(rec0__ + 4) - 1 >= COLS__")
    return c, env["builtins"]


def jobs(src):
    return jobs_dense(src) + jobs_sparse(src)


def jobs_dense(src):
    c, b = dense_writer()
    return [dict(contract=c, source=src, builtins=b, lang="python", tag="op4._write_binary[ndarray; ghost output file]",
                 dropped_extra={"branch not covered": "the scipy.sparse branch (`else` of isinstance(matrix, np.ndarray)) - bounded round trips only",
                                "assumed callee contract": "_write_binary_header returns (number of columns, 2 if complex else 1) and appends 32 bytes"})]


def concrete_search(limit=12000):
    """after a failed writer obligation: look for a concrete matrix whose dense binary write -> load round trip on the REAL code is wrong (small shapes,
    leading / trailing zero rows, all-zero columns, real and complex, both byte orders).  Returns a counterexample dict or None."""
    import itertools, os, tempfile
    import numpy as np
    from pyyeti.nastran import op4
    n = 0
    tmp = tempfile.mkdtemp(prefix="c04w_")
    fn = os.path.join(tmp, "w.op4")
    try:
        for rows, cols in ((1, 1), (2, 1), (3, 2), (5, 3), (4, 4)):
            pats = list(itertools.product((0, 1), repeat=rows))
            for cplx in (False, True):
                for combo in itertools.islice(itertools.product(pats, repeat=cols), 0, 300):
                    M = np.array(combo, dtype=float).T * (np.arange(1, rows * cols + 1).reshape(cols, rows).T + 0.25)
                    if cplx:
                        M = M * (1 + 0.5j)
                    for endian, lay in (("<", "dense"), (">", "dense"), ("<", "bigmat"), (">", "nonbigmat"), ("<", "nonbigmat"), (">", "bigmat")):
                        n += 1
                        if n > limit:
                            return None
                        try:
                            op4.write(fn, {"A": M, "Z": np.ones((2, 2))}, binary=True, endian=endian, sparse=lay)
                            d = {k.upper(): v for k, v in op4.load(fn, into="dct").items()}
                            ok = d["A"][0].shape == M.shape and np.array_equal(d["A"][0], M) and np.array_equal(d["Z"][0], np.ones((2, 2)))
                            got = d["A"][0].tolist() if not ok else None
                        except Exception as ex:          # noqa: BLE001 - the real code failing on a valid matrix is the counterexample
                            ok, got = False, "%s: %s" % (type(ex).__name__, ex)
                        if not ok:
                            return dict(what="binary op4.write(sparse=%r) -> op4.load does not return the matrix written" % lay, matrix=repr(M.tolist()), endian=endian, layout=lay, read_back=repr(got)[:600], fails=True)
    finally:
        import shutil
        shutil.rmtree(tmp, ignore_errors=True)
    return None


# ------------------------------------------------------------------------------------------------------------------ sparse layouts
def sparse_writer(layout):
    """`_write_binary_bigmat` / `_write_binary_nonbigmat` with `OP4._write_binary_sparse` (ndarray branch) and the two nested helpers INLINED at their call sites.
    The column is abstract: NS(c) maximal runs of non-zeros, run k = rows R0(c,k) .. R0(c,k)+R1(c,k)-1, TOT(c) = sum of the R1 (PS = partial sums, by unfolding);
    `OP4._sparse_col_stats(v.nonzero()[0])` yields exactly these runs (its own arithmetic is a kernel obligation of C04 and bounded), `sum(ind[:, 1])` is TOT(c)."""
    env = make_env()
    b = dict(env["builtins"])
    HW = 2 if layout == "bigmat" else 1
    fname = {"bigmat": "_write_binary_bigmat", "nonbigmat": "_write_binary_nonbigmat"}[layout]
    c = Contract(FILE, "OP4." + fname, floats="real")
    c.objects = True
    c.variant = "ndarray"
    c.names = {"float": FLOAT}
    c.inline = {"OP4._write_binary_sparse": ("OP4._write_binary_sparse", "S")}

    def str_format(eng, a, b_):
        if a == "%dd":
            return Fmt("d", eng.to_int(b_))
        raise Unsupported("string format %r" % (a,))
    c.str_format = str_format
    c.extra_mods = ("pos__", "W4__", "VCOL__", "VLO__", "VN__", "rec0__", "nrec__", "S__")
    matrix, selfobj = env["matrix"], env["selfobj"]
    matrix.attrs["shape"] = (ROWS, z3.Int("COLS__"))
    selfobj.attrs["_rows4bigmat"] = 65536
    selfobj.methods["_write_binary_bigmat"] = lambda eng, e, st, spec: None

    def isinstance_(eng, e, st, spec):
        a = eng.ev(e.args[0], st)
        t = ast.unparse(e.args[1])
        if a is matrix and t == "np.ndarray":
            return True
        if a is matrix and t == "tuple":
            return False
        raise Unsupported("isinstance(%s)" % ast.unparse(e)[:40])

    def col_stats(eng, e, st, spec):
        pv = eng.ev(e.args[0], st)
        if not (isinstance(pv, PyObj) and getattr(pv, "view", None) is not None):
            raise Unsupported("_sparse_col_stats of something that is not v.nonzero()[0]")
        v = pv.view
        if not z3.simplify(v.lo == 0).eq(z3.BoolVal(True)):
            raise Unsupported("_sparse_col_stats of a sub-view")
        col = v.col
        # definition of the runs of a column that has a non-zero (numpy / _sparse_col_stats semantics, assumed; exercised by the bounded round trips)
        st.assume(z3.Implies(ANY(col), z3.And(NS(col) >= 1, NS(col) <= TOT(col), TOT(col) <= ROWS, PS(col, 0) == 0, PS(col, NS(col)) == TOT(col))))
        ind = PyObj("runs of column", attrs={"shape": (NS(col), 2)})
        ind.transient = True
        ind.col = col
        ind.iter_rows = (NS(col), lambda k: (R0(col, k), R1(col, k)))

        def getitem(eng_, e2, st2, spec2):
            if ast.unparse(e2.slice) in ("(slice(None, None, None), 1)", ":, 1") or ast.unparse(e2).endswith("[:, 1]"):
                lens = PyObj("run lengths")
                lens.transient = True
                lens.total = TOT(col)
                return lens
            raise Unsupported("index %s into the runs table" % ast.unparse(e2))
        ind.getitem = getitem
        return ind

    def sum_(eng, e, st, spec):
        x = eng.ev(e.args[0], st)
        if isinstance(x, PyObj) and getattr(x, "total", None) is not None:
            return x.total
        raise Unsupported("sum of %r" % (x,))

    def len_(eng, e, st, spec):
        x = eng.ev(e.args[0], st)
        if isinstance(x, PyObj) and x.kind == "column view":
            return (x.hi - x.lo) * (MULT if x.as_float else 1)
        if isinstance(x, (tuple, str)):
            return len(x)
        raise Unsupported("len of %r" % (x,))

    def np_any(eng, e, st, spec):
        v = eng.ev(e.args[0], st)
        if not (isinstance(v, PyObj) and v.kind == "column view" and z3.simplify(v.lo == 0).eq(z3.BoolVal(True))):
            raise Unsupported("np.any argument")
        return ANY(v.col)

    def unfold_runs(eng, e, st, spec):
        cc, k = [eng.to_int(eng.ev(a, st, True)) for a in e.args]
        facts = [PS(cc, k + 1) == PS(cc, k) + R1(cc, k),
                 z3.Implies(z3.And(k >= 0, k < NS(cc)), z3.And(R0(cc, k) >= 0, R1(cc, k) >= 1, R0(cc, k) + R1(cc, k) <= ROWS, PS(cc, k + 1) <= TOT(cc)))]
        if layout == "nonbigmat":
            # D4 (recorded known finding of C04): a run of >= 16384 reals overflows the packed string header; the contract covers the runs below that limit
            facts.append(z3.Implies(z3.And(k >= 0, k < NS(cc)), 2 * R1(cc, k) * MULT + 1 <= 32767))
        return z3.And(*facts)

    def reader_string_def(eng, e, st, spec):
        """the READER's definition of a string header (op4_readers.string_header_def) on the words just written: L value words for rows row.."""
        S, L, row = [eng.to_int(eng.ev(a, st, True)) for a in e.args]
        W = st.env["W4__"]
        hdr, hb = OR.string_header_def(lambda p: z3.Select(W, p), S, z3.IntVal(4), L, row, layout)
        return hdr

    b.update({"isinstance": isinstance_, "OP4._sparse_col_stats": col_stats, "sum": sum_, "len": len_, "np.any": np_any, "NS": None, "UNFOLD_RUNS": unfold_runs,
              "READER_STRING_DEF": reader_string_def})
    uf2 = lambda f: (lambda eng, e, st, spec: f(*[eng.to_int(eng.ev(a, st, spec)) for a in e.args]))
    b.update({"NS": uf2(NS), "R0": uf2(R0), "R1": uf2(R1), "PS": uf2(PS), "TOT": uf2(TOT)})
    c.param_types.update({"self": ("const", selfobj)})
    c.types(f=("const", env["fileobj"]), name=("const", PyObj("name")), matrix=("const", matrix), endian=("const", env["endian"]), form=("const", None),
            COLS__="int", P0__="int", MULT=("const", MULT), ROWS=("const", ROWS))
    c.ghost("pos__", "int", "P0__")
    c.ghost("rec0__", "int", "0")
    c.ghost("nrec__", "int", "0")
    c.ghost("S__", "int", "0")
    for g in ("W4__", "VCOL__", "VLO__", "VN__"):
        c.ghost(g, "intmap", None)
    cap = "24 * ROWS + 12 <= 2147483647"          # reclen = 4 * (3 + HW*NS + 2*TOT*MULT) <= 4 * (3 + 2*ROWS + 4*ROWS)
    c.requires("COLS__ >= 0", "MULT == 1 or MULT == 2", "ROWS >= 0", "P0__ >= 0", "COLS__ < 2147483647", cap, "NDATA(0) == 0",
               *(["ROWS < 65536"] if layout == "nonbigmat" else []))
    NW = "%d * NS(c) + 2 * TOT(c) * MULT" % HW
    # last clause: the last record written is complete - its trailer repeats its length marker and the file ends right after it (no text anchor needed for the trailer write)
    c.loop("S.0", invariant=["0 <= nx_c", "nx_c <= cols", "cols == COLS__", "multiplier == MULT", "nrec__ == NDATA(nx_c)", "pos__ >= P0__ + 32",
                             "nrec__ == 0 or pos__ == rec0__ + 4 + W4(rec0__) + 4 and W4(pos__ - 4) == W4(rec0__)"], unfold=["UNFOLD_NDATA(nx_c)"])
    c.loop("S.0.0", invariant=["0 <= nx_r0", "nx_r0 <= NS(c)", "ANY(c)", "0 <= c", "c < cols", "cols == COLS__", "multiplier == MULT", "NS(c) >= 1", "NS(c) <= TOT(c)", "TOT(c) <= ROWS",
                               "PS(c, 0) == 0", "PS(c, NS(c)) == TOT(c)", "PS(c, nx_r0) >= 0", "pos__ == S__", "S__ == rec0__ + 16 + %d * nx_r0 + 8 * MULT * PS(c, nx_r0)" % (4 * HW),
                               "reclen == 4 * (3 + %s)" % NW, "W4(rec0__) == reclen", "W4(rec0__ + 4) == c + 1", "W4(rec0__ + 8) == 0", "W4(rec0__ + 12) == %s" % NW,
                               "nrec__ == NDATA(c) + 1", "pos__ >= P0__ + 32"],
           unfold=["UNFOLD_RUNS(c, nx_r0)"])
    c.after_stmt("reclen = _write_col_header(f, ind, c, multiplier, colHeader)", ["S__ = pos__",
                 "assert W4(rec0__) == reclen and reclen == 4 * (3 + %s)" % NW, "assert W4(rec0__ + 4) == c + 1 and W4(rec0__ + 8) == 0 and W4(rec0__ + 12) == %s" % NW,
                 "assert pos__ == rec0__ + 16"], occurrence=0)
    hb = 4 * HW
    c.after_stmt("_write_data_string(f, string, r0, r1, multiplier, LrStruct, endian)",
                 ["assert READER_STRING_DEF(S__, 2 * r1 * MULT, r0 + 1)",
                  "assert VCOL(S__ + %d) == c and VLO(S__ + %d) == r0 and VN(S__ + %d) == r1 * MULT" % (hb, hb, hb),
                  "assert pos__ == S__ + %d + 8 * r1 * MULT" % hb,
                  "S__ = pos__"], occurrence=0)
    c.ensures("nrec__ == NDATA(COLS__) + 1", "W4(rec0__) == 20", "W4(rec0__ + 4) == COLS__ + 1", "W4(rec0__ + 8) == 1", "W4(rec0__ + 12) == 2",
              "VN(rec0__ + 16) == 1", "W4(rec0__ + 24) == 20", "pos__ == rec0__ + 28")
    return c, b


def jobs_sparse(src):
    out = []
    for lay in ("bigmat", "nonbigmat"):
        c, b = sparse_writer(lay)
        out.append(dict(contract=c, source=src, builtins=b, lang="python", tag="op4.%s[ndarray; _write_binary_sparse and the nested helpers inlined; ghost output file]" % c.qualname.split(".")[1],
                        dropped_extra={"branch not covered": "the scipy.sparse branch of _write_binary_sparse - bounded round trips only",
                                       "assumed": "_sparse_col_stats(v.nonzero()[0]) lists the maximal runs of non-zeros of the column; _write_binary_header as in the dense contract"
                                       + ("; runs shorter than the D4 limit (recorded known finding)" if lay == "nonbigmat" else "")}))
    return out
