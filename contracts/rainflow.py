"""Sidecar contracts for pyyeti/rainflow/py_rain.py and pyyeti/rainflow/c_rain.c (repository files untouched).

Top-level postconditions come from property C05:
  * each counted cycle's amplitude and mean are those of the two reversal points its offsets name
  * twice the sum of counts equals the number of reversals minus one
  * every returned row is one that was written (buffers come from np.empty / PyArray_SimpleNew)
  * the table is the one the ASTM E1049 procedure produces (block refinement against contracts/astm_e1049.py);
    C and Python refine the same deterministic machine on the same abstract view, hence agree
Loop invariants, shapes and helper facts come from the code.

One contract generator serves the four functions through a *layout*:
  python: rf[i, c], os[i, c], row counter n          C: flat buffers written through advancing pointers rf, os
The variants without offsets (_rainflow1 / rainflow1) get the offsets as ghost state: cycle_index is a
provenance shadow of pts (which input position each stacked value was copied from) and os is written by
ghost code after the count-column store of each row.
"""
from vc.symex import Contract
from . import astm_e1049 as astm

PY = "pyyeti/rainflow/py_rain.py"
C = "pyyeti/rainflow/c_rain.c"


class Layout:
    def __init__(self, lang):
        self.lang = lang
        if lang == "py":
            self.RF = lambda i, c: "rf[%s, %d]" % (i, c)
            self.OS = lambda i, c: "os[%s, %d]" % (i, c)
            self.NROWS = "(n + 1)"
        else:
            self.RF = lambda i, c: "rf_array__buf[3 * (%s) + %d]" % (i, c)
            self.OS = lambda i, c: "os_array__buf[2 * (%s) + %d]" % (i, c)
            self.NROWS = "nw"

    def rows(self, K, nrows=None, RF=None, OS=None):
        RF, OS = RF or self.RF, OS or self.OS
        a, b = OS("i", 0), OS("i", 1)
        return ("forall(i, 0, %s, 0 <= %s and %s < %s and %s < %s"
                " and %s == abs(peaks[%s] - peaks[%s]) / 2"
                " and %s == (peaks[%s] + peaks[%s]) / 2"
                " and (%s == 0.5 or %s == 1.0))") % (nrows or self.NROWS, a, a, b, b, K, RF("i", 0), a, b, RF("i", 1), a, b,
                                                     RF("i", 2), RF("i", 2))

    def counts(self):
        base = ["fullcyclesp1 >= 1", "nw >= 0", "twice == nw + (fullcyclesp1 - 1)"]
        if self.lang == "py":
            return base + ["n >= -1", "nw == n + 1"]
        return base + ["rf == 3 * nw", "os == 2 * nw"]

    # specification blocks in this layout -------------------------------------------------
    def emit(self, a, b, count):
        if self.lang == "py":
            return ("n = n + 1\n"
                    "rf[n, 0] = abs(peaks[%(a)s] - peaks[%(b)s]) / 2\n"
                    "rf[n, 1] = (peaks[%(a)s] + peaks[%(b)s]) / 2\n"
                    "rf[n, 2] = %(c)s\n"
                    "os[n, 0] = %(a)s\n"
                    "os[n, 1] = %(b)s\n") % dict(a=a, b=b, c=count)
        return ("rf_array__buf[rf] = abs(peaks[%(a)s] - peaks[%(b)s]) / 2\n"
                "rf_array__buf[rf + 1] = (peaks[%(a)s] + peaks[%(b)s]) / 2\n"
                "rf_array__buf[rf + 2] = %(c)s\n"
                "rf = rf + 3\n"
                "os_array__buf[os] = %(a)s\n"
                "os_array__buf[os + 1] = %(b)s\n"
                "os = os + 2\n") % dict(a=a, b=b, c=count)

    def row_coupling(self):
        if self.lang == "py":
            return ["n == n_s",
                    "forall(i, 0, n + 1, rf[i, 0] == rf_s[i, 0] and rf[i, 1] == rf_s[i, 1] and rf[i, 2] == rf_s[i, 2]"
                    " and os[i, 0] == os_s[i, 0] and os[i, 1] == os_s[i, 1])"]
        return ["rf == rf_s", "os == os_s",
                "forall(i, 0, rf, rf_array__buf[i] == rf_array__buf_s[i])",
                "forall(i, 0, os, os_array__buf[i] == os_array__buf_s[i])"]


STACK_COUPLING = ["j == j_s", "forall(i, 0, j + 1, pts[i] == pts_s[i] and cycle_index[i] == cycle_index_s[i])"]


def stack(K):
    return ["forall(i, 0, j + 1, 0 <= cycle_index[i] and cycle_index[i] < %s and pts[i] == peaks[cycle_index[i]])" % K,
            "forall(i, 0, j, cycle_index[i] < cycle_index[i + 1])"]


def make(lang, with_offsets):
    lay = Layout(lang)
    if lang == "py":
        c = Contract(PY, "_rainflow2" if with_offsets else "_rainflow1", floats="uf")
        c.types(peaks="farray", L="int")
        c.requires("L >= 2", "len(peaks) == L")
        rfname, count_store = "rf", "if idx1 == 2:"
        row_of = "idx0"
    else:
        c = Contract(C, "rainflow2" if with_offsets else "rainflow1", floats="uf")
        c.types(peaks_array=("const", "OBJ"), peaks_array__data="farray", L="int")
        # 2**60: the allocation sizes 3*(L-1)*8 bytes must fit npy_intp; beyond it calloc fails first
        c.requires("L >= 2", "len(peaks_array__data) == L", "L <= 2**60")
        rfname, count_store = "rf_array__buf", "if idx0 % 3 == 2:"
        row_of = "(idx0 - 2) // 3"
    # ghost accumulator 2*sum(count column); nw = rows whose count has been written (sequential, once each)
    c.ghost("twice", "int", "0")
    c.ghost("nw", "int", "0")
    c.on_store(rfname, [
        count_store + "\n"
        "    assert %s == nw\n" % row_of +
        "    assert value == 0.5 or value == 1.0\n"
        "    twice = twice + (1 if value == 0.5 else 2)\n"
        "    nw = nw + 1"])
    if not with_offsets:
        # offsets as ghost state (witnesses for "the two reversal points" of each row)
        c.ghost("cycle_index", "iarray", "np.empty(L, np.int64)")
        c.shadow("pts", "cycle_index", "peaks")
        if lang == "py":
            c.ghost("os", "iarray2", "np.empty((L - 1, 2), np.int64)")
            c.after_stmt("rf[n, 2] = 0.5", ["os[n, 0] = cycle_index[0]", "os[n, 1] = cycle_index[1]"], occurrence=0)
            c.after_stmt("rf[n, 2] = 1.0", ["os[n, 0] = cycle_index[j - 2]", "os[n, 1] = cycle_index[j - 1]"], occurrence=0)
            c.after_stmt("rf[n, 2] = 0.5", ["os[n, 0] = cycle_index[k]", "os[n, 1] = cycle_index[k + 1]"], occurrence=1)
        else:
            c.ghost("os_array__buf", "iarray", "np.empty(2 * (L - 1), np.int64)")
            c.ghost("os", "int", "0")
            g = lambda a, b: ["os_array__buf[os] = cycle_index[%s]" % a, "os_array__buf[os + 1] = cycle_index[%s]" % b, "os = os + 2"]
            c.after_stmt("rf_array__buf[rf] = 0.5", g("0", "1"), occurrence=0)
            c.after_stmt("rf_array__buf[rf] = 1.0", g("j - 2", "j - 1"), occurrence=0)
            c.after_stmt("rf_array__buf[rf] = 0.5", g("k", "k + 1"), occurrence=1)
    NR = lay.NROWS
    cnt = lay.counts()
    K = "nx_k"
    c.loop("0", invariant=["0 <= nx_k", "nx_k <= L", "-1 <= j", "j < nx_k",
                           "implies(nx_k >= 1, j >= 0 and cycle_index[j] == nx_k - 1)",
                           "%s == nx_k - (j + 1) - (fullcyclesp1 - 1)" % NR] + cnt + stack(K) + [lay.rows(K)])
    K = "k + 1"
    c.loop("0.0", invariant=["0 <= k", "k < L", "0 <= j", "j <= k", "cycle_index[j] == k",
                             "%s == (k + 1) - (j + 1) - (fullcyclesp1 - 1)" % NR] + cnt + stack(K) + [lay.rows(K)],
           decreases="j")
    c.loop("1", invariant=["0 <= nx_k", "nx_k <= j or j < 0 and nx_k == 0", "j >= 0", "j < L",
                           "%s == L - (j + 1) - (fullcyclesp1 - 1) + nx_k" % NR,
                           "implies(nx_k <= j, A == pts[nx_k])"] + cnt + stack("L") + [lay.rows("L")])
    # ASTM E1049 5.4.4 as block specifications
    step1 = "j = j + 1\npts[j] = peaks[k]\ncycle_index[j] = k\n"
    steps25 = ("a = cycle_index[j - 2]\nb = cycle_index[j - 1]\nc = cycle_index[j]\n"
               "Y = abs(peaks[a] - peaks[b])\nX = abs(peaks[b] - peaks[c])\n"
               "if X < Y:\n    break\n"                                            # 3(a)
               "if j - 2 == 0:\n"                                                  # Y contains S = pts[0]: rule 5
               + _ind(lay.emit("a", "b", "0.5")) +
               "    pts[0] = peaks[b]\n    cycle_index[0] = b\n    pts[1] = peaks[c]\n    cycle_index[1] = c\n    j = 1\n"
               "else:\n"                                                           # rule 4
               + _ind(lay.emit("a", "b", "1.0")) +
               "    fullcyclesp1 = fullcyclesp1 + 1\n    pts[j - 2] = peaks[c]\n    cycle_index[j - 2] = c\n    j = j - 2\n")
    step6 = "a = cycle_index[k]\nb = cycle_index[k + 1]\n" + lay.emit("a", "b", "0.5")
    c.refines("0", step1, STACK_COUPLING, prefix_only=True, cite="E1049 5.4.4 rule 1")
    c.refines("0.0", steps25, STACK_COUPLING + ["fullcyclesp1 == fullcyclesp1_s"] + lay.row_coupling(), cite="E1049 5.4.4 rules 2-5")
    c.refines("1", step6, lay.row_coupling(), cite="E1049 5.4.4 rule 6")
    # postconditions
    if lang == "py":
        res_rf = "result[0]" if with_offsets else "result"
        RFr = lambda i, cc: "%s[%s, %d]" % (res_rf, i, cc)
        OSr = (lambda i, cc: "result[1][%s, %d]" % (i, cc)) if with_offsets else lay.OS
        c.ensures("n + 1 == L - fullcyclesp1", "len(%s) == n + 1" % res_rf, "twice == L - 1",
                  lay.rows("L", nrows="len(%s)" % res_rf, RF=RFr, OS=OSr))
        if with_offsets:
            c.ensures("len(result[1]) == n + 1")
    else:
        # result = ((buffer, rows, cols), ...) : the object returned views the first `rows` rows of `buffer`
        RFr = lambda i, cc: "result[0][0][3 * (%s) + %d]" % (i, cc)
        OSr = (lambda i, cc: "result[1][0][2 * (%s) + %d]" % (i, cc)) if with_offsets else lay.OS
        c.ensures("nw == L - fullcyclesp1", "result[0][1] == nw", "result[0][2] == 3", "twice == L - 1",
                  "rf == 3 * nw", "3 * nw <= len(result[0][0])",
                  lay.rows("L", nrows="result[0][1]", RF=RFr, OS=OSr))
        if with_offsets:
            c.ensures("result[1][1] == nw", "result[1][2] == 2", "2 * nw <= len(result[1][0])")
    return c


def _ind(s):
    return "".join("    " + l + "\n" for l in s.splitlines())


def callee_rainflow(which):
    """contract of _rainflow1/2 (rainflow1/2) as seen from the dispatcher: requires only"""
    def cc(eng, st, argv, node):
        import z3
        arr, L = argv[0], argv[1]
        L = eng.to_int(L)
        eng.oblige(st, L >= 2, "call-%s.requires(L >= 2)" % which, "assert", node)
        if hasattr(arr, "shape"):
            eng.oblige(st, arr.shape[0] == L, "call-%s.requires(len(peaks) == L)" % which, "assert", node)
            ok1 = arr.ndim == 1
            eng.oblige(st, z3.BoolVal(ok1), "call-%s.requires(peaks is 1-D)" % which, "assert", node)
        else:
            eng.oblige(st, z3.And(st.env["ndim_peaks_array"] == 1, st.env["peaks_array__data"].shape[0] == L),
                       "call-%s.requires(len(peaks) == L, 1-D)" % which, "assert", node)
        return ("RESULT_OF", which)
    return cc


def py_dispatch(ndim):
    c = Contract(PY, "rainflow", floats="uf")
    c.types(peaks="farray" if ndim == 1 else "farray2", getoffsets="bool")
    c.variant = "peaks.ndim == %d" % ndim
    if ndim == 1:
        c.raises("ValueError", "len(peaks) < 2")
        c.ensures("implies(getoffsets, result[1] == '_rainflow2')", "implies(not getoffsets, result[1] == '_rainflow1')")
    else:
        c.raises("ValueError", "True")
    return c


def c_dispatch():
    c = Contract(C, "rainflow", floats="uf")
    c.param_types.update({"self": ("const", None)})
    c.types(args=("const", None), keywds=("const", None),
            ARG_peaks_obj=("const", "OBJ"), ARG_getoffsets="int", ndim_peaks_array="int", dim0_peaks_array="int",
            peaks_array__data="farray")
    c.requires("ndim_peaks_array >= 0", "implies(ndim_peaks_array == 1, len(peaks_array__data) == dim0_peaks_array)")
    c.raises("ValueError", "not (ndim_peaks_array == 1 and dim0_peaks_array >= 2)")
    c.ensures("implies(ARG_getoffsets != 0, result[1] == 'rainflow2')", "implies(ARG_getoffsets == 0, result[1] == 'rainflow1')")
    return c
