"""Sidecar contracts for pyyeti/rainflow/py_rain.py (the repository file is not edited).

Top-level postconditions come from property C05:
  * each counted cycle's amplitude and mean are those of the two reversal points its offsets name
  * twice the sum of counts equals the number of reversals minus one
  * every returned row is one that was written (buffers come from np.empty)
Loop invariants and the helper facts come from the code.
"""
from vc.symex import Contract
from . import astm_e1049 as astm

FILE = "pyyeti/rainflow/py_rain.py"


def rows(K, rf="rf", os="os", n="n + 1"):
    return ("forall(i, 0, %(n)s, 0 <= %(os)s[i, 0] and %(os)s[i, 0] < %(os)s[i, 1] and %(os)s[i, 1] < %(K)s"
            " and %(rf)s[i, 0] == abs(peaks[%(os)s[i, 0]] - peaks[%(os)s[i, 1]]) / 2"
            " and %(rf)s[i, 1] == (peaks[%(os)s[i, 0]] + peaks[%(os)s[i, 1]]) / 2"
            " and (%(rf)s[i, 2] == 0.5 or %(rf)s[i, 2] == 1.0))") % dict(K=K, rf=rf, os=os, n=n)


def stack(K):
    return ["forall(i, 0, j + 1, 0 <= cycle_index[i] and cycle_index[i] < %s and pts[i] == peaks[cycle_index[i]])" % K,
            "forall(i, 0, j, cycle_index[i] < cycle_index[i + 1])"]


COUNTS = ["fullcyclesp1 >= 1", "n >= -1", "nw == n + 1", "twice == (n + 1) + (fullcyclesp1 - 1)"]
SHAPES = ["len(pts) == L", "len(cycle_index) == L", "len(rf) == L - 1", "len(os) == L - 1"]


def rainflow2():
    c = Contract(FILE, "_rainflow2", floats="uf")
    c.types(peaks="farray", L="int")
    c.requires("L >= 2", "len(peaks) == L")
    # ghost accumulator: 2*sum(count column), maintained at every store into rf[:, 2];
    # nw = number of rows whose count has been written; writes must be sequential (each row once)
    c.ghost("twice", "int", "0")
    c.ghost("nw", "int", "0")
    c.on_store("rf", [
        "if idx1 == 2:\n"
        "    assert idx0 == nw\n"
        "    assert value == 0.5 or value == 1.0\n"
        "    twice = twice + (1 if value == 0.5 else 2)\n"
        "    nw = nw + 1"])
    K = "nx_k"
    c.loop("0", invariant=["0 <= nx_k", "nx_k <= L", "-1 <= j", "j < nx_k", "implies(nx_k >= 1, j >= 0 and cycle_index[j] == nx_k - 1)",
                           "n + 1 == nx_k - (j + 1) - (fullcyclesp1 - 1)"] + COUNTS + stack(K) + [rows(K)])
    K = "k + 1"
    c.loop("0.0", invariant=["0 <= k", "k < L", "0 <= j", "j <= k",
                             "cycle_index[j] == k",
                             "n + 1 == (k + 1) - (j + 1) - (fullcyclesp1 - 1)"] + COUNTS + stack(K) + [rows(K)],
           decreases="j")
    c.loop("1", invariant=["0 <= nx_k", "nx_k <= j or j < 0 and nx_k == 0", "j >= 0", "j < L",
                           "n + 1 == L - (j + 1) - (fullcyclesp1 - 1) + nx_k",
                           "implies(nx_k <= j, A == pts[nx_k])"] + COUNTS + stack("L") + [rows("L")])
    c.refines("0", astm.STEP1, astm.STEP1_COUPLING, prefix_only=True, cite="E1049 5.4.4 rule 1")
    c.refines("0.0", astm.STEPS_2_TO_5, astm.STEPS_2_TO_5_COUPLING, cite="E1049 5.4.4 rules 2-5")
    c.refines("1", astm.STEP6, astm.STEP6_COUPLING, cite="E1049 5.4.4 rule 6")
    c.ensures("n + 1 == L - fullcyclesp1",
              "len(result[0]) == n + 1", "len(result[1]) == n + 1",
              "twice == L - 1",
              rows("L", rf="result[0]", os="result[1]", n="len(result[0])"))
    return c


ALL = [rainflow2]
